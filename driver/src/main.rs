// MIR / HIR fact extractor for the static analyses in /verif/analysis.
//
// Invoked as RUSTC_WORKSPACE_WRAPPER: argv = [driver, rustc, args...].
// For the crate named by VERIF_CRATE (default coap_lite) it writes one JSON
// fact file to VERIF_FACTS_OUT after analysis; every other invocation is a
// plain rustc run.  Nothing here executes code of the analysed crate.
#![feature(rustc_private)]
#![allow(clippy::all)]

extern crate rustc_abi;
extern crate rustc_driver;
extern crate rustc_hir;
extern crate rustc_interface;
extern crate rustc_middle;
extern crate rustc_span;

use std::collections::HashMap;
use std::fmt::Write as _;

use rustc_driver::Compilation;
use rustc_hir::def::DefKind;
use rustc_hir::def_id::{DefId, LOCAL_CRATE};
use rustc_middle::mir::{
    self, AggregateKind, AssertKind, BinOp, BorrowKind, CastKind, Const,
    ConstValue, Operand, Place, ProjectionElem, Rvalue, StatementKind,
    TerminatorKind, UnOp, UnwindAction,
};
use rustc_middle::ty::print::{with_no_trimmed_paths, with_no_visible_paths};
use rustc_middle::ty::{self, GenericArgsRef, Ty, TyCtxt, TypingEnv};
use rustc_span::Span;

// ---------------------------------------------------------------- JSON ----

#[derive(Clone)]
enum J {
    Null,
    Bool(bool),
    Num(i128),
    Str(String),
    Arr(Vec<J>),
    Obj(Vec<(String, J)>),
}

fn esc(s: &str, out: &mut String) {
    out.push('"');
    for c in s.chars() {
        match c {
            '"' => out.push_str("\\\""),
            '\\' => out.push_str("\\\\"),
            '\n' => out.push_str("\\n"),
            '\r' => out.push_str("\\r"),
            '\t' => out.push_str("\\t"),
            c if (c as u32) < 0x20 => {
                let _ = write!(out, "\\u{:04x}", c as u32);
            }
            c => out.push(c),
        }
    }
    out.push('"');
}

impl J {
    fn write(&self, out: &mut String) {
        match self {
            J::Null => out.push_str("null"),
            J::Bool(b) => out.push_str(if *b { "true" } else { "false" }),
            J::Num(n) => {
                let _ = write!(out, "{}", n);
            }
            J::Str(s) => esc(s, out),
            J::Arr(v) => {
                out.push('[');
                for (i, x) in v.iter().enumerate() {
                    if i > 0 {
                        out.push(',');
                    }
                    x.write(out);
                }
                out.push(']');
            }
            J::Obj(v) => {
                out.push('{');
                for (i, (k, x)) in v.iter().enumerate() {
                    if i > 0 {
                        out.push(',');
                    }
                    esc(k, out);
                    out.push(':');
                    x.write(out);
                }
                out.push('}');
            }
        }
    }
}

fn s<T: Into<String>>(x: T) -> J {
    J::Str(x.into())
}
fn n<T: Into<i128>>(x: T) -> J {
    J::Num(x.into())
}
macro_rules! obj {
    ($($k:expr => $v:expr),* $(,)?) => { J::Obj(vec![$(($k.to_string(), $v)),*]) };
}

// ----------------------------------------------------------- extractor ----

struct Ex<'tcx> {
    tcx: TyCtxt<'tcx>,
    types: Vec<J>,
    type_ix: HashMap<Ty<'tcx>, usize>,
    adts: Vec<DefId>,
    adt_seen: HashMap<DefId, ()>,
}

fn path_of(tcx: TyCtxt<'_>, d: DefId) -> String {
    with_no_trimmed_paths!(with_no_visible_paths!(tcx.def_path_str(d)))
}

fn local_id(tcx: TyCtxt<'_>, d: DefId) -> String {
    // unique inside the crate and independent of pretty-printing
    tcx.def_path(d).to_string_no_crate_verbose()
}

impl<'tcx> Ex<'tcx> {
    fn span(&self, sp: Span) -> J {
        let sm = self.tcx.sess.source_map();
        let lo = sm.lookup_char_pos(sp.lo());
        let file = format!("{}", lo.file.name.prefer_local_unconditionally());
        let mut o = vec![
            ("f".to_string(), s(file)),
            ("l".to_string(), n(lo.line as i128)),
            ("c".to_string(), n(lo.col.0 as i128 + 1)),
        ];
        if sp.from_expansion() {
            let ed = sp.ctxt().outer_expn_data();
            o.push(("exp".to_string(), s(format!("{:?}", ed.kind))));
            // the call site in user code
            let cs = sp.source_callsite();
            let clo = sm.lookup_char_pos(cs.lo());
            o.push(("cl".to_string(), n(clo.line as i128)));
            o.push(("cf".to_string(), s(format!("{}", clo.file.name.prefer_local_unconditionally()))));
        }
        J::Obj(o)
    }

    fn ty(&mut self, t: Ty<'tcx>) -> J {
        J::Num(self.ty_ix(t) as i128)
    }

    fn ty_ix(&mut self, t: Ty<'tcx>) -> usize {
        if let Some(&i) = self.type_ix.get(&t) {
            return i;
        }
        let i = self.types.len();
        self.types.push(J::Null);
        self.type_ix.insert(t, i);
        let j = self.ty_json(t);
        self.types[i] = j;
        i
    }

    fn gargs_types(&mut self, args: GenericArgsRef<'tcx>) -> J {
        self.gargs_slice(args.as_slice())
    }

    fn gargs_slice(&mut self, args: &[ty::GenericArg<'tcx>]) -> J {
        let mut v = vec![];
        for a in args.iter() {
            if let Some(t) = a.as_type() {
                v.push(self.ty(t));
            }
        }
        J::Arr(v)
    }

    fn ty_json(&mut self, t: Ty<'tcx>) -> J {
        let tcx = self.tcx;
        let disp = with_no_trimmed_paths!(with_no_visible_paths!(format!("{}", t)));
        match *t.kind() {
            ty::Bool => obj! {"k"=>s("bool"), "s"=>s(disp)},
            ty::Char => obj! {"k"=>s("char"), "s"=>s(disp)},
            ty::Int(it) => {
                let bits = it.bit_width().unwrap_or(64);
                obj! {"k"=>s("int"), "bits"=>n(bits as i128), "signed"=>J::Bool(true), "s"=>s(disp)}
            }
            ty::Uint(ut) => {
                let bits = ut.bit_width().unwrap_or(64);
                obj! {"k"=>s("int"), "bits"=>n(bits as i128), "signed"=>J::Bool(false), "s"=>s(disp)}
            }
            ty::Float(_) => obj! {"k"=>s("float"), "s"=>s(disp)},
            ty::Str => obj! {"k"=>s("str"), "s"=>s(disp)},
            ty::Never => obj! {"k"=>s("never"), "s"=>s(disp)},
            ty::Adt(def, args) => {
                let did = def.did();
                if self.adt_seen.insert(did, ()).is_none() {
                    self.adts.push(did);
                }
                let kind = if def.is_enum() {
                    "enum"
                } else if def.is_union() {
                    "union"
                } else {
                    "struct"
                };
                let ga = self.gargs_types(args);
                obj! {"k"=>s("adt"), "path"=>s(path_of(tcx, did)), "adt"=>s(kind), "args"=>ga, "s"=>s(disp)}
            }
            ty::Ref(_, inner, m) => {
                let i = self.ty(inner);
                obj! {"k"=>s("ref"), "mut"=>J::Bool(m.is_mut()), "to"=>i, "s"=>s(disp)}
            }
            ty::RawPtr(inner, m) => {
                let i = self.ty(inner);
                obj! {"k"=>s("rawptr"), "mut"=>J::Bool(m.is_mut()), "to"=>i, "s"=>s(disp)}
            }
            ty::Slice(inner) => {
                let i = self.ty(inner);
                obj! {"k"=>s("slice"), "of"=>i, "s"=>s(disp)}
            }
            ty::Array(inner, len) => {
                let i = self.ty(inner);
                let l = match len.try_to_target_usize(tcx) {
                    Some(v) => n(v as i128),
                    None => J::Null,
                };
                obj! {"k"=>s("array"), "of"=>i, "len"=>l, "s"=>s(disp)}
            }
            ty::Tuple(ts) => {
                let mut v = vec![];
                for x in ts.iter() {
                    v.push(self.ty(x));
                }
                obj! {"k"=>s("tuple"), "of"=>J::Arr(v), "s"=>s(disp)}
            }
            ty::FnDef(d, args) => {
                let f = self.describe_fn(d, args);
                obj! {"k"=>s("fndef"), "fn"=>f, "s"=>s(disp)}
            }
            ty::FnPtr(..) => obj! {"k"=>s("fnptr"), "s"=>s(disp)},
            ty::Closure(d, args) => {
                let ca = args.as_closure();
                let mut up = vec![];
                for x in ca.upvar_tys().iter() {
                    up.push(self.ty(x));
                }
                let pa = self.gargs_slice(ca.parent_args());
                let id = if d.is_local() { s(local_id(tcx, d)) } else { J::Null };
                obj! {"k"=>s("closure"), "id"=>id, "path"=>s(path_of(tcx, d)), "upvars"=>J::Arr(up), "parent_args"=>pa, "s"=>s(disp)}
            }
            ty::Param(p) => obj! {"k"=>s("param"), "name"=>s(p.name.as_str()), "s"=>s(disp)},
            ty::Dynamic(..) => obj! {"k"=>s("dyn"), "s"=>s(disp)},
            ty::Alias(..) => obj! {"k"=>s("alias"), "s"=>s(disp)},
            _ => obj! {"k"=>s("other"), "s"=>s(disp)},
        }
    }

    fn describe_fn(&mut self, d: DefId, args: GenericArgsRef<'tcx>) -> J {
        let tcx = self.tcx;
        let kind = tcx.def_kind(d);
        let mut o: Vec<(String, J)> = vec![
            ("path".into(), s(path_of(tcx, d))),
            ("krate".into(), s(tcx.crate_name(d.krate).as_str())),
            ("local".into(), J::Bool(d.is_local())),
            ("kind".into(), s(format!("{:?}", kind))),
            ("name".into(), match tcx.opt_item_name(d) { Some(x) => s(x.as_str()), None => J::Null }),
        ];
        if d.is_local() {
            o.push(("id".into(), s(local_id(tcx, d))));
        }
        o.push(("gargs".into(), self.gargs_types(args)));
        match kind {
            DefKind::Fn | DefKind::AssocFn => {
                let sig = tcx.fn_sig(d).skip_binder();
                if sig.safety().is_unsafe() {
                    o.push(("unsafe".into(), J::Bool(true)));
                }
            }
            _ => {}
        }
        if let DefKind::Ctor(of, _) = kind {
            // constructor used as a function
            let parent = tcx.parent(d);
            let (adt_did, variant) = match of {
                rustc_hir::def::CtorOf::Struct => (parent, 0usize),
                rustc_hir::def::CtorOf::Variant => {
                    let adt_did = tcx.parent(parent);
                    let adt = tcx.adt_def(adt_did);
                    let vi = adt.variant_index_with_id(parent).as_usize();
                    (adt_did, vi)
                }
            };
            o.push(("ctor".into(), obj! {"adt"=>s(path_of(tcx, adt_did)), "variant"=>n(variant as i128)}));
        }
        if let DefKind::AssocFn = kind {
            if let Some(tr) = tcx.trait_of_assoc(d) {
                o.push(("trait".into(), s(path_of(tcx, tr))));
                // Self type = first generic arg
                if let Some(a) = args.iter().next() {
                    if let Some(t) = a.as_type() {
                        o.push(("self_ty".into(), self.ty(t)));
                    }
                }
            } else {
                let imp = tcx.parent(d);
                if let DefKind::Impl { of_trait } = tcx.def_kind(imp) {
                    if imp.is_local() {
                        o.push(("impl_id".into(), s(local_id(tcx, imp))));
                    }
                    if of_trait {
                        let tr = tcx.impl_trait_ref(imp).instantiate_identity().skip_norm_wip();
                        o.push(("impl_trait".into(), s(path_of(tcx, tr.def_id))));
                    }
                }
            }
        }
        J::Obj(o)
    }

    fn place(&mut self, p: &Place<'tcx>) -> J {
        let mut pr = vec![];
        for e in p.projection.iter() {
            let j = match e {
                ProjectionElem::Deref => obj! {"k"=>s("deref")},
                ProjectionElem::Field(f, t) => {
                    let tj = self.ty(t);
                    obj! {"k"=>s("field"), "i"=>n(f.as_usize() as i128), "ty"=>tj}
                }
                ProjectionElem::Index(l) => obj! {"k"=>s("index"), "l"=>n(l.as_usize() as i128)},
                ProjectionElem::ConstantIndex { offset, min_length, from_end } => {
                    obj! {"k"=>s("constindex"), "off"=>n(offset as i128), "min"=>n(min_length as i128), "from_end"=>J::Bool(from_end)}
                }
                ProjectionElem::Subslice { from, to, from_end } => {
                    obj! {"k"=>s("subslice"), "from"=>n(from as i128), "to"=>n(to as i128), "from_end"=>J::Bool(from_end)}
                }
                ProjectionElem::Downcast(name, v) => {
                    obj! {"k"=>s("downcast"), "v"=>n(v.as_usize() as i128), "name"=> match name { Some(x) => s(x.as_str()), None => J::Null }}
                }
                ProjectionElem::OpaqueCast(_) => obj! {"k"=>s("opaquecast")},
                ProjectionElem::UnwrapUnsafeBinder(_) => obj! {"k"=>s("unwrapbinder")},
            };
            pr.push(j);
        }
        obj! {"l"=>n(p.local.as_usize() as i128), "p"=>J::Arr(pr)}
    }

    fn konst(&mut self, c: &Const<'tcx>, env: TypingEnv<'tcx>) -> J {
        let tcx = self.tcx;
        let t = c.ty();
        let tj = self.ty(t);
        let mut o: Vec<(String, J)> = vec![("k".into(), s("const")), ("ty".into(), tj)];
        // function items are zero-sized constants of FnDef type
        if let ty::FnDef(d, args) = *t.kind() {
            let f = self.describe_fn(d, args);
            o.push(("fn".into(), f));
            return J::Obj(o);
        }
        if let Const::Unevaluated(uv, _) = c {
            o.push(("item".into(), s(path_of(tcx, uv.def))));
            if let Some(p) = uv.promoted {
                o.push(("promoted".into(), n(p.as_usize() as i128)));
            }
        }
        let is_scalar_ty = matches!(t.kind(), ty::Bool | ty::Char | ty::Int(_) | ty::Uint(_));
        if is_scalar_ty {
            if let Some(si) = c.try_eval_scalar_int(tcx, env) {
                let sz = si.size();
                let bits = si.to_bits(sz);
                let mut v = bits as i128;
                if let ty::Int(_) = t.kind() {
                    // sign-extend
                    let nb = sz.bits() as u32;
                    if nb < 128 && (bits >> (nb - 1)) & 1 == 1 {
                        v = (bits as i128) - (1i128 << nb);
                    }
                }
                o.push(("int".into(), s(format!("{}", v))));
                o.push(("size".into(), n(sz.bytes() as i128)));
                return J::Obj(o);
            }
        }
        // &str / &[u8] literals
        if let ty::Ref(_, inner, _) = t.kind() {
            if matches!(inner.kind(), ty::Str) || matches!(inner.kind(), ty::Slice(e) if matches!(e.kind(), ty::Uint(ty::UintTy::U8))) {
                if let Ok(v) = c.eval(tcx, env, rustc_span::DUMMY_SP) {
                    if let ConstValue::Slice { .. } | ConstValue::Indirect { .. } = v {
                        if let Some(b) = v.try_get_slice_bytes_for_diagnostics(tcx) {
                            if matches!(inner.kind(), ty::Str) {
                                o.push(("str".into(), s(String::from_utf8_lossy(b).to_string())));
                            }
                            o.push(("bytes".into(), J::Arr(b.iter().map(|x| n(*x as i128)).collect())));
                            return J::Obj(o);
                        }
                    }
                }
            }
        }
        if let Ok(v) = c.eval(tcx, env, rustc_span::DUMMY_SP) {
            if let ConstValue::ZeroSized = v {
                o.push(("zst".into(), J::Bool(true)));
                return J::Obj(o);
            }
        }
        o.push(("dbg".into(), s(with_no_trimmed_paths!(format!("{:?}", c)))));
        J::Obj(o)
    }

    fn operand(&mut self, op: &Operand<'tcx>, env: TypingEnv<'tcx>) -> J {
        match op {
            Operand::Copy(p) => {
                let pj = self.place(p);
                obj! {"k"=>s("copy"), "place"=>pj}
            }
            Operand::Move(p) => {
                let pj = self.place(p);
                obj! {"k"=>s("move"), "place"=>pj}
            }
            Operand::Constant(c) => self.konst(&c.const_, env),
            Operand::RuntimeChecks(rc) => obj! {"k"=>s("runtimechecks"), "which"=>s(format!("{:?}", rc))},
        }
    }

    fn rvalue(&mut self, rv: &Rvalue<'tcx>, env: TypingEnv<'tcx>) -> J {
        let tcx = self.tcx;
        match rv {
            Rvalue::Use(op, _) => {
                let o = self.operand(op, env);
                obj! {"k"=>s("use"), "op"=>o}
            }
            Rvalue::Repeat(op, cnt) => {
                let o = self.operand(op, env);
                let c = match cnt.try_to_target_usize(tcx) {
                    Some(v) => n(v as i128),
                    None => J::Null,
                };
                obj! {"k"=>s("repeat"), "op"=>o, "count"=>c}
            }
            Rvalue::Ref(_, bk, p) => {
                let m = matches!(bk, BorrowKind::Mut { .. });
                let pj = self.place(p);
                obj! {"k"=>s("ref"), "mut"=>J::Bool(m), "place"=>pj}
            }
            Rvalue::ThreadLocalRef(d) => obj! {"k"=>s("threadlocal"), "item"=>s(path_of(tcx, *d))},
            Rvalue::RawPtr(kind, p) => {
                let pj = self.place(p);
                obj! {"k"=>s("rawptr"), "kind"=>s(format!("{:?}", kind)), "place"=>pj}
            }
            Rvalue::Cast(ck, op, t) => {
                let o = self.operand(op, env);
                let tj = self.ty(*t);
                let kind = match ck {
                    CastKind::IntToInt => "IntToInt".to_string(),
                    CastKind::PointerCoercion(pc, _) => format!("PointerCoercion({:?})", pc),
                    other => format!("{:?}", other),
                };
                obj! {"k"=>s("cast"), "kind"=>s(kind), "op"=>o, "ty"=>tj}
            }
            Rvalue::BinaryOp(op, ab) => {
                let a = self.operand(&ab.0, env);
                let b = self.operand(&ab.1, env);
                obj! {"k"=>s("bin"), "op"=>s(binop(*op)), "a"=>a, "b"=>b}
            }
            Rvalue::UnaryOp(op, a) => {
                let aj = self.operand(a, env);
                let o = match op {
                    UnOp::Not => "Not",
                    UnOp::Neg => "Neg",
                    UnOp::PtrMetadata => "PtrMetadata",
                };
                obj! {"k"=>s("un"), "op"=>s(o), "a"=>aj}
            }
            Rvalue::Discriminant(p) => {
                let pj = self.place(p);
                obj! {"k"=>s("discr"), "place"=>pj}
            }
            Rvalue::Aggregate(kind, ops) => {
                let mut v = vec![];
                for o in ops.iter() {
                    v.push(self.operand(o, env));
                }
                let kj = match &**kind {
                    AggregateKind::Array(t) => {
                        let tj = self.ty(*t);
                        obj! {"k"=>s("array"), "of"=>tj}
                    }
                    AggregateKind::Tuple => obj! {"k"=>s("tuple")},
                    AggregateKind::Adt(d, vi, args, _, active) => {
                        let adt = tcx.adt_def(*d);
                        if self.adt_seen.insert(*d, ()).is_none() {
                            self.adts.push(*d);
                        }
                        let vname = adt.variant(*vi).name.as_str().to_string();
                        let ga = self.gargs_types(args);
                        obj! {"k"=>s("adt"), "path"=>s(path_of(tcx, *d)), "variant"=>n(vi.as_usize() as i128), "vname"=>s(vname),
                              "args"=>ga, "active"=> match active { Some(f) => n(f.as_usize() as i128), None => J::Null }}
                    }
                    AggregateKind::Closure(d, args) => {
                        let pa = self.gargs_slice(args.as_closure().parent_args());
                        obj! {"k"=>s("closure"), "id"=> if d.is_local() { s(local_id(tcx, *d)) } else { J::Null }, "path"=>s(path_of(tcx, *d)), "parent_args"=>pa}
                    }
                    AggregateKind::RawPtr(t, m) => {
                        let tj = self.ty(*t);
                        obj! {"k"=>s("rawptr"), "to"=>tj, "mut"=>J::Bool(m.is_mut())}
                    }
                    _ => obj! {"k"=>s("other")},
                };
                obj! {"k"=>s("aggregate"), "kind"=>kj, "ops"=>J::Arr(v)}
            }
            Rvalue::CopyForDeref(p) => {
                let pj = self.place(p);
                obj! {"k"=>s("use"), "op"=>obj!{"k"=>s("copy"), "place"=>pj}}
            }
            Rvalue::WrapUnsafeBinder(op, _) => {
                let o = self.operand(op, env);
                obj! {"k"=>s("use"), "op"=>o}
            }
        }
    }

    fn unwind(&self, u: &UnwindAction) -> J {
        match u {
            UnwindAction::Cleanup(b) => n(b.as_usize() as i128),
            _ => J::Null,
        }
    }

    fn body(&mut self, did: DefId, body: &mir::Body<'tcx>, promoted: Option<usize>) -> J {
        let tcx = self.tcx;
        let env = TypingEnv::post_analysis(tcx, did);
        let caller_args = ty::GenericArgs::identity_for_item(tcx, did);
        let mut locals = vec![];
        for d in body.local_decls.iter() {
            let tj = self.ty(d.ty);
            locals.push(obj! {"ty"=>tj, "mut"=>J::Bool(d.mutability.is_mut())});
        }
        let mut names = vec![];
        for v in body.var_debug_info.iter() {
            if let mir::VarDebugInfoContents::Place(p) = &v.value {
                let pj = self.place(p);
                names.push(obj! {"name"=>s(v.name.as_str()), "place"=>pj, "arg"=> match v.argument_index { Some(i) => n(i as i128), None => J::Null }});
            }
        }
        let mut blocks = vec![];
        for (_bb, data) in body.basic_blocks.iter_enumerated() {
            let mut stmts = vec![];
            for st in data.statements.iter() {
                let sp = self.span(st.source_info.span);
                match &st.kind {
                    StatementKind::Assign(b) => {
                        let pj = self.place(&b.0);
                        let rj = self.rvalue(&b.1, env);
                        stmts.push(obj! {"k"=>s("assign"), "place"=>pj, "rv"=>rj, "span"=>sp});
                    }
                    StatementKind::SetDiscriminant { place, variant_index } => {
                        let pj = self.place(place);
                        stmts.push(obj! {"k"=>s("setdiscr"), "place"=>pj, "variant"=>n(variant_index.as_usize() as i128), "span"=>sp});
                    }
                    StatementKind::Intrinsic(i) => {
                        stmts.push(obj! {"k"=>s("intrinsic"), "dbg"=>s(format!("{:?}", i)), "span"=>sp});
                    }
                    StatementKind::StorageLive(_)
                    | StatementKind::StorageDead(_)
                    | StatementKind::Nop
                    | StatementKind::PlaceMention(_)
                    | StatementKind::FakeRead(_)
                    | StatementKind::AscribeUserType(..)
                    | StatementKind::Coverage(..)
                    | StatementKind::ConstEvalCounter
                    | StatementKind::BackwardIncompatibleDropHint { .. } => {}
                }
            }
            let term = data.terminator();
            let sp = self.span(term.source_info.span);
            let tj = match &term.kind {
                TerminatorKind::Goto { target } => obj! {"k"=>s("goto"), "t"=>n(target.as_usize() as i128)},
                TerminatorKind::SwitchInt { discr, targets } => {
                    let d = self.operand(discr, env);
                    let mut arms = vec![];
                    for (v, t) in targets.iter() {
                        arms.push(J::Arr(vec![s(format!("{}", v)), n(t.as_usize() as i128)]));
                    }
                    let dt = discr.ty(&body.local_decls, tcx);
                    let dtj = self.ty(dt);
                    obj! {"k"=>s("switch"), "op"=>d, "ty"=>dtj, "arms"=>J::Arr(arms), "otherwise"=>n(targets.otherwise().as_usize() as i128)}
                }
                TerminatorKind::UnwindResume => obj! {"k"=>s("resume")},
                TerminatorKind::UnwindTerminate(_) => obj! {"k"=>s("terminate")},
                TerminatorKind::Return => obj! {"k"=>s("return")},
                TerminatorKind::Unreachable => obj! {"k"=>s("unreachable")},
                TerminatorKind::Drop { place, target, unwind, .. } => {
                    let pj = self.place(place);
                    let pt = place.ty(&body.local_decls, tcx).ty;
                    let ptj = self.ty(pt);
                    obj! {"k"=>s("drop"), "place"=>pj, "ty"=>ptj, "t"=>n(target.as_usize() as i128), "unwind"=>self.unwind(unwind)}
                }
                TerminatorKind::Call { func, args, destination, target, unwind, .. } => {
                    let mut aj = vec![];
                    for a in args.iter() {
                        aj.push(self.operand(&a.node, env));
                    }
                    let dj = self.place(destination);
                    let dt = destination.ty(&body.local_decls, tcx).ty;
                    let dtj = self.ty(dt);
                    let mut o: Vec<(String, J)> = vec![
                        ("k".into(), s("call")),
                        ("args".into(), J::Arr(aj)),
                        ("dest".into(), dj),
                        ("dest_ty".into(), dtj),
                        ("t".into(), match target { Some(t) => n(t.as_usize() as i128), None => J::Null }),
                        ("unwind".into(), self.unwind(unwind)),
                    ];
                    if let Some((d, ga)) = func.const_fn_def() {
                        let f = self.describe_fn(d, ga);
                        o.push(("callee".into(), f));
                        // resolution in the caller's own (identity) context
                        let _ = caller_args;
                        match ty::Instance::try_resolve(tcx, env, d, ga) {
                            Ok(Some(inst)) => {
                                let rd = inst.def_id();
                                let kind = match inst.def {
                                    ty::InstanceKind::Item(_) => "item".to_string(),
                                    other => {
                                        let dbg = format!("{:?}", other);
                                        dbg.split('(').next().unwrap_or("other").to_string()
                                    }
                                };
                                let rf = self.describe_fn(rd, inst.args);
                                o.push(("resolved".into(), rf));
                                o.push(("resolved_kind".into(), s(kind)));
                            }
                            _ => {}
                        }
                    } else {
                        let fj = self.operand(func, env);
                        o.push(("indirect".into(), fj));
                    }
                    J::Obj(o)
                }
                TerminatorKind::TailCall { .. } => obj! {"k"=>s("tailcall")},
                TerminatorKind::Assert { cond, expected, msg, target, unwind } => {
                    let c = self.operand(cond, env);
                    let (mk, mops): (String, Vec<J>) = match &**msg {
                        AssertKind::BoundsCheck { len, index } => {
                            ("BoundsCheck".into(), vec![self.operand(len, env), self.operand(index, env)])
                        }
                        AssertKind::Overflow(op, a, b) => {
                            (format!("Overflow({})", binop(*op)), vec![self.operand(a, env), self.operand(b, env)])
                        }
                        AssertKind::OverflowNeg(a) => ("OverflowNeg".into(), vec![self.operand(a, env)]),
                        AssertKind::DivisionByZero(a) => ("DivisionByZero".into(), vec![self.operand(a, env)]),
                        AssertKind::RemainderByZero(a) => ("RemainderByZero".into(), vec![self.operand(a, env)]),
                        AssertKind::MisalignedPointerDereference { required, found } => {
                            ("MisalignedPointerDereference".into(), vec![self.operand(required, env), self.operand(found, env)])
                        }
                        AssertKind::NullPointerDereference => ("NullPointerDereference".into(), vec![]),
                        AssertKind::InvalidEnumConstruction(a) => ("InvalidEnumConstruction".into(), vec![self.operand(a, env)]),
                        other => (format!("{:?}", other).split('(').next().unwrap_or("Other").to_string(), vec![]),
                    };
                    obj! {"k"=>s("assert"), "cond"=>c, "expected"=>J::Bool(*expected), "msg"=>s(mk), "ops"=>J::Arr(mops),
                          "t"=>n(target.as_usize() as i128), "unwind"=>self.unwind(unwind)}
                }
                TerminatorKind::FalseEdge { real_target, .. } => obj! {"k"=>s("goto"), "t"=>n(real_target.as_usize() as i128)},
                TerminatorKind::FalseUnwind { real_target, .. } => obj! {"k"=>s("goto"), "t"=>n(real_target.as_usize() as i128)},
                TerminatorKind::Yield { .. } | TerminatorKind::CoroutineDrop => obj! {"k"=>s("coroutine")},
                TerminatorKind::InlineAsm { .. } => obj! {"k"=>s("inlineasm")},
            };
            blocks.push(obj! {"stmts"=>J::Arr(stmts), "term"=>tj, "tspan"=>sp, "cleanup"=>J::Bool(data.is_cleanup)});
        }

        // generic type parameter names, parents first
        let mut gens = vec![];
        {
            let g = tcx.generics_of(did);
            let mut stack = vec![g];
            let mut cur = g;
            while let Some(p) = cur.parent {
                cur = tcx.generics_of(p);
                stack.push(cur);
            }
            for g in stack.iter().rev() {
                for p in g.own_params.iter() {
                    if let ty::GenericParamDefKind::Type { .. } = p.kind {
                        gens.push(s(p.name.as_str()));
                    }
                }
            }
        }

        let kind = tcx.def_kind(did);
        let mut o: Vec<(String, J)> = vec![
            ("id".into(), s(match promoted { Some(i) => format!("{}::{{promoted#{}}}", local_id(tcx, did), i), None => local_id(tcx, did) })),
            ("path".into(), s(path_of(tcx, did))),
            ("kind".into(), s(format!("{:?}", kind))),
            ("name".into(), match tcx.opt_item_name(did) { Some(x) => s(x.as_str()), None => J::Null }),
            ("span".into(), self.span(body.span)),
            ("arg_count".into(), n(body.arg_count as i128)),
            ("generics".into(), J::Arr(gens)),
            ("locals".into(), J::Arr(locals)),
            ("names".into(), J::Arr(names)),
            ("blocks".into(), J::Arr(blocks)),
        ];
        if promoted.is_some() {
            o.push(("promoted".into(), J::Bool(true)));
        }
        if matches!(kind, DefKind::Fn | DefKind::AssocFn) {
            o.push(("pub".into(), J::Bool(tcx.visibility(did).is_public())));
            let sig = tcx.fn_sig(did).skip_binder();
            o.push(("unsafe_fn".into(), J::Bool(sig.safety().is_unsafe())));
        }
        if let DefKind::AssocFn = kind {
            let parent = tcx.parent(did);
            if let DefKind::Impl { of_trait } = tcx.def_kind(parent) {
                o.push(("impl_id".into(), s(local_id(tcx, parent))));
                let st = tcx.type_of(parent).instantiate_identity().skip_norm_wip();
                let stj = self.ty(st);
                o.push(("impl_self".into(), stj));
                o.push(("derived".into(), J::Bool(tcx.is_automatically_derived(parent))));
                if of_trait {
                    let tr = tcx.impl_trait_ref(parent).instantiate_identity().skip_norm_wip();
                    o.push(("impl_trait".into(), s(path_of(tcx, tr.def_id))));
                    let mut ta = vec![];
                    for a in tr.args.iter().skip(1) {
                        if let Some(t) = a.as_type() {
                            ta.push(self.ty(t));
                        }
                    }
                    o.push(("impl_trait_args".into(), J::Arr(ta)));
                    o.push(("impl_trait_krate".into(), s(format!("{}#{:?}", tcx.crate_name(tr.def_id.krate).as_str(), tcx.stable_crate_id(tr.def_id.krate)))));
                }
            }
        }
        J::Obj(o)
    }

    fn adt_json(&mut self, did: DefId) -> J {
        let tcx = self.tcx;
        let adt = tcx.adt_def(did);
        let mut vs = vec![];
        for (vi, v) in adt.variants().iter_enumerated() {
            let mut fs = vec![];
            for f in v.fields.iter() {
                let ft = tcx.type_of(f.did).instantiate_identity().skip_norm_wip();
                let ftj = self.ty(ft);
                fs.push(obj! {"name"=>s(f.name.as_str()), "ty"=>ftj, "pub"=>J::Bool(f.vis.is_public())});
            }
            let discr = if adt.is_enum() {
                s(format!("{}", adt.discriminant_for_variant(tcx, vi).val))
            } else {
                J::Null
            };
            vs.push(obj! {"name"=>s(v.name.as_str()), "discr"=>discr, "fields"=>J::Arr(fs)});
        }
        let mut gens = vec![];
        for p in tcx.generics_of(did).own_params.iter() {
            if let ty::GenericParamDefKind::Type { .. } = p.kind {
                gens.push(s(p.name.as_str()));
            }
        }
        let kind = if adt.is_enum() { "enum" } else if adt.is_union() { "union" } else { "struct" };
        let mut o: Vec<(String, J)> = vec![
            ("path".into(), s(path_of(tcx, did))),
            ("kind".into(), s(kind)),
            ("local".into(), J::Bool(did.is_local())),
            ("generics".into(), J::Arr(gens)),
            ("variants".into(), J::Arr(vs)),
        ];
        if did.is_local() {
            o.push(("id".into(), s(local_id(tcx, did))));
            o.push(("pub".into(), J::Bool(tcx.visibility(did).is_public())));
        }
        J::Obj(o)
    }
}

fn binop(op: BinOp) -> &'static str {
    match op {
        BinOp::Add => "Add",
        BinOp::AddUnchecked => "AddUnchecked",
        BinOp::AddWithOverflow => "AddWithOverflow",
        BinOp::Sub => "Sub",
        BinOp::SubUnchecked => "SubUnchecked",
        BinOp::SubWithOverflow => "SubWithOverflow",
        BinOp::Mul => "Mul",
        BinOp::MulUnchecked => "MulUnchecked",
        BinOp::MulWithOverflow => "MulWithOverflow",
        BinOp::Div => "Div",
        BinOp::Rem => "Rem",
        BinOp::BitXor => "BitXor",
        BinOp::BitAnd => "BitAnd",
        BinOp::BitOr => "BitOr",
        BinOp::Shl => "Shl",
        BinOp::ShlUnchecked => "ShlUnchecked",
        BinOp::Shr => "Shr",
        BinOp::ShrUnchecked => "ShrUnchecked",
        BinOp::Eq => "Eq",
        BinOp::Lt => "Lt",
        BinOp::Le => "Le",
        BinOp::Ne => "Ne",
        BinOp::Ge => "Ge",
        BinOp::Gt => "Gt",
        BinOp::Cmp => "Cmp",
        BinOp::Offset => "Offset",
    }
}

fn extract<'tcx>(tcx: TyCtxt<'tcx>, out_path: &str) {
    let mut ex = Ex { tcx, types: vec![], type_ix: HashMap::new(), adts: vec![], adt_seen: HashMap::new() };
    let mut bodies = vec![];
    let mut n_bodies = 0usize;
    for ldid in tcx.mir_keys(()).iter() {
        let did = ldid.to_def_id();
        let kind = tcx.def_kind(did);
        if !matches!(kind, DefKind::Fn | DefKind::AssocFn | DefKind::Closure) {
            continue;
        }
        let body = tcx.optimized_mir(did);
        bodies.push(ex.body(did, body, None));
        n_bodies += 1;
        for (pi, pb) in tcx.promoted_mir(did).iter_enumerated() {
            bodies.push(ex.body(did, pb, Some(pi.as_usize())));
        }
    }

    // items: ADTs, impls, consts, statics of the local crate
    let mut impls = vec![];
    let mut consts = vec![];
    let mut statics = vec![];
    let mut local_adts = vec![];
    for ldid in tcx.hir_crate_items(()).definitions() {
        let did = ldid.to_def_id();
        match tcx.def_kind(did) {
            DefKind::Struct | DefKind::Enum | DefKind::Union => {
                local_adts.push(did);
            }
            DefKind::Impl { of_trait } => {
                let st = tcx.type_of(did).instantiate_identity().skip_norm_wip();
                let stj = ex.ty(st);
                let mut o: Vec<(String, J)> = vec![
                    ("id".into(), s(local_id(tcx, did))),
                    ("self_ty".into(), stj),
                    ("derived".into(), J::Bool(tcx.is_automatically_derived(did))),
                    ("span".into(), ex.span(tcx.def_span(did))),
                ];
                if of_trait {
                    let tr = tcx.impl_trait_ref(did).instantiate_identity().skip_norm_wip();
                    o.push(("trait".into(), s(path_of(tcx, tr.def_id))));
                    o.push(("trait_krate".into(), s(format!("{}#{:?}", tcx.crate_name(tr.def_id.krate).as_str(), tcx.stable_crate_id(tr.def_id.krate)))));
                    let mut ta = vec![];
                    for a in tr.args.iter().skip(1) {
                        if let Some(t) = a.as_type() {
                            ta.push(ex.ty(t));
                        }
                    }
                    o.push(("trait_args".into(), J::Arr(ta)));
                }
                let mut ms = vec![];
                for it in tcx.associated_items(did).in_definition_order() {
                    ms.push(obj! {"name"=>s(it.name().as_str()), "id"=>s(local_id(tcx, it.def_id)), "kind"=>s(format!("{:?}", tcx.def_kind(it.def_id)))});
                }
                o.push(("items".into(), J::Arr(ms)));
                impls.push(J::Obj(o));
            }
            DefKind::Const { .. } | DefKind::AssocConst { .. } => {
                let g = tcx.generics_of(did);
                if g.count() == 0 || g.own_requires_monomorphization() == false && g.parent_count == 0 {
                    let t = tcx.type_of(did).instantiate_identity().skip_norm_wip();
                    let tj = ex.ty(t);
                    let mut o: Vec<(String, J)> = vec![
                        ("id".into(), s(local_id(tcx, did))),
                        ("path".into(), s(path_of(tcx, did))),
                        ("ty".into(), tj),
                    ];
                    if let Ok(v) = tcx.const_eval_poly(did) {
                        match v {
                            ConstValue::Scalar(sc) => {
                                if let Ok(si) = sc.try_to_scalar_int() {
                                    o.push(("int".into(), s(format!("{}", si.to_bits(si.size())))));
                                }
                            }
                            ConstValue::Slice { .. } | ConstValue::Indirect { .. } => {
                                if let ty::Ref(_, inner, _) = t.kind() {
                                    if matches!(inner.kind(), ty::Str) {
                                        if let Some(b) = v.try_get_slice_bytes_for_diagnostics(tcx) {
                                            o.push(("str".into(), s(String::from_utf8_lossy(b).to_string())));
                                        }
                                    }
                                }
                            }
                            _ => {}
                        }
                    }
                    consts.push(J::Obj(o));
                }
            }
            DefKind::Static { mutability, .. } => {
                let sty = tcx.type_of(did).instantiate_identity().skip_norm_wip();
                let senv = TypingEnv::post_analysis(tcx, did);
                statics.push(obj! {"id"=>s(local_id(tcx, did)), "mut"=>J::Bool(mutability.is_mut()),
                    "ty_s"=>s(&format!("{:?}", sty)), "freeze"=>J::Bool(sty.is_freeze(tcx, senv))});
            }
            _ => {}
        }
    }
    for d in local_adts {
        if ex.adt_seen.insert(d, ()).is_none() {
            ex.adts.push(d);
        }
    }
    let mut adts = vec![];
    let mut i = 0;
    while i < ex.adts.len() {
        let d = ex.adts[i];
        adts.push(ex.adt_json(d));
        i += 1;
    }

    let cfgs: Vec<J> = tcx
        .sess
        .opts
        .cg
        .overflow_checks
        .iter()
        .map(|b| J::Bool(*b))
        .collect();
    let root = obj! {
        "schema"=>n(1),
        "crate"=>s(tcx.crate_name(LOCAL_CRATE).as_str()),
        "rustc"=>s(option_env!("CFG_VERSION").unwrap_or("nightly")),
        "overflow_checks"=>J::Arr(cfgs),
        "n_bodies"=>n(n_bodies as i128),
        "types"=>J::Arr(ex.types.clone()),
        "bodies"=>J::Arr(bodies),
        "adts"=>J::Arr(adts),
        "impls"=>J::Arr(impls),
        "consts"=>J::Arr(consts),
        "statics"=>J::Arr(statics),
    };
    let mut out = String::with_capacity(4 << 20);
    root.write(&mut out);
    std::fs::write(out_path, out).expect("write facts");
}

struct Cb {
    target: String,
    out: Option<String>,
}

impl rustc_driver::Callbacks for Cb {
    fn after_analysis<'tcx>(
        &mut self,
        _c: &rustc_interface::interface::Compiler,
        tcx: TyCtxt<'tcx>,
    ) -> Compilation {
        if let Some(out) = &self.out {
            if tcx.crate_name(LOCAL_CRATE).as_str() == self.target {
                extract(tcx, out);
            }
        }
        Compilation::Continue
    }
}

fn main() {
    let mut args: Vec<String> = std::env::args().collect();
    // RUSTC_WORKSPACE_WRAPPER passes the real rustc as argv[1]
    if args.len() > 1 && (args[1].ends_with("rustc") || args[1].contains("rustc")) && !args[1].starts_with('-') {
        args.remove(1);
    }
    let target = std::env::var("VERIF_CRATE").unwrap_or_else(|_| "coap_lite".to_string());
    let out = std::env::var("VERIF_FACTS_OUT").ok();
    let mut cb = Cb { target, out };
    rustc_driver::run_compiler(&args, &mut cb);
}
